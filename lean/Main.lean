import Mp4ff.Driver.C01
import Mp4ff.Driver.C04
import Mp4ff.Driver.C05
import Mp4ff.Driver.C06b
import Mp4ff.Driver.C07
import Mp4ff.Driver.C08
import Mp4ff.Driver.C09
import Mp4ff.Driver.C10
import Mp4ff.Driver.C11
import Mp4ff.Driver.C12
import Mp4ff.Driver.C13
import Mp4ff.Driver.C14
import Mp4ff.Driver.C15
import Mp4ff.Driver.C17
import Mp4ff.Driver.C18
import Mp4ff.Driver.C19
/-! `mp4ffdrv`: one request per input line, one response per output line. -/
open Mp4ff.Driver

def dispatchers : List (String → List String → Option String) :=
  [C01.dispatch, C04.dispatch, C05.dispatch, C06b.dispatch, C07.dispatch, C08.dispatch, C09.dispatch, C10.dispatch, C11.dispatch, C12.dispatch, C13.dispatch, C14.dispatch, C15.dispatch, C17.dispatch, C18.dispatch, C19.dispatch]

def respond (line : String) : String :=
  match splitWs line with
  | [] => ""
  | op :: args =>
    match dispatchers.findSome? (fun d => d op args) with
    | some r => r
    | none => "bad-op"

partial def loop (h : IO.FS.Stream) (out : IO.FS.Stream) : IO Unit := do
  let line ← h.getLine
  if line.isEmpty then return ()
  let l := line.trimAsciiEnd.toString
  out.putStrLn (respond l)
  loop h out

def main : IO Unit := do
  let out ← IO.getStdout
  loop (← IO.getStdin) out
  out.flush
